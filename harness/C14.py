"""C14  QED x QCD kernels reduce to QCD kernels when alpha_em vanishes.

Real functions executed symbolically: non_singlet_qed.{exact, fixed_alphaem_exact, dispatcher}, singlet_qed.{eko_iterate, dispatcher},
valence_qed.dispatcher, singlet.eko_iterate, non_singlet exact kernels.

Goals (alpha_em := 0, QCD anomalous dimensions embedded in the QED grids by the harness, symbolic coupling steps):
  non-singlet: QED kernel (1 and 2 steps) == product of the exact QCD non-singlet kernels of the same order over the same steps (identity);
  singlet (4x4) / valence (2x2): every step exponent handed to the matrix exponential equals, entry by entry, the embedding of the
      exponent of the QCD iterated singlet step (gluon/quark block, photon row and column zero, no mixing with Sdelta) and the
      Sdelta / Vdelta / V entries equal the midpoint-rule exponent gamma_ns(a_half)/beta(a_half) * delta_a of the non-singlet ODE;
      that exponent reproduces the exact non-singlet kernel through eps^2 per step (jets).
Not decided: the end-to-end alpha_em -> 0 limit of full solves (numerical).
"""
from fractions import Fraction

from .kern import *  # noqa
from symx.solver import explore, prove_zero
from symx import harness as H

MOD = "harness.C14"
# QED singlet basis order (g, photon, Sigma, Sigma_Delta); QCD singlet basis order (Sigma, g)
EMB = {(0, 0): (1, 1), (0, 2): (1, 0), (2, 0): (0, 1), (2, 2): (0, 0)}


def case_ns(log, order, nf):
    ns, sg, ei, as4, ad = kernel_modules()
    as4.np.exact_const_sqrt = True
    nsq = sym_module("eko.kernels.non_singlet_qed")
    from eko.kernels import EvoMethods

    log.encode(nsq.exact, nsq.fixed_alphaem_exact, nsq.dispatcher)
    oq, oe = order
    exact = {1: ns.lo_exact, 2: ns.nlo_exact, 3: ns.nnlo_exact, 4: ns.n3lo_exact}[oq]
    rp = (MOD, "replay_ns", {"order": list(order), "nf": nf})
    log.register_replay("fallback:replay_ns", rp, _sampler)

    def run():
        a = [SR.var("a%d" % i) for i in range(3)]
        m0, m1 = SR.var("mu2_from"), SR.var("mu2_to")
        for x in a + [m0, m1]:
            assume(x, ">0")
        for x in a:
            assume(Fraction(1, 10) - x, ">0")
        g = realnp.empty((oq + 1, oe + 1), dtype=object)
        for i in range(oq + 1):
            for j in range(oe + 1):
                g[i, j] = SR.var("g%d%d" % (i, j)) if (i, j) != (0, 0) else SR(0)
        nfs = SR(nf)
        from eko import beta as B

        bet = [SR(0) + B.beta_qcd((2 + i, 0), nfs) for i in range(oq)]
        gq = [g[k + 1, 0] for k in range(oq)]
        for steps in (1, 2):
            for running in (True, False):
                al = a[: steps + 1]
                got = Cx.lift(nsq.dispatcher(order, EvoMethods.ITERATE_EXACT, g, al, [SR(0)] * steps, running, nfs, steps, m0, m1))
                want = Cx.lift(1)
                for s in range(1, steps + 1):
                    want = want * Cx.lift(exact(gq, al[s], al[s - 1], bet))
                v = prove_zero(got - want, "non-singlet QED kernel at aem=0 (%d steps, alphaem_running=%s, order %r, nf %d) == product of exact QCD kernels" % (steps, running, order, nf), timeout_ms=60000)
                log.decide(v, key="nsqed:aem0", replay=rp, sampler=_sampler)
        log.twin("domain")
        log.collect_ctx()

    _r, pm = explore(run)
    log.path_stats(pm)


def case_matrix(log, order, sector):
    """singlet (dim 4) or valence (dim 2): compare step exponents exactly."""
    ns, sg, ei, as4, ad = kernel_modules()
    sq = sym_module("eko.kernels.singlet_qed")
    vq = sym_module("eko.kernels.valence_qed")
    from eko.kernels import EvoMethods

    log.encode(sq.eko_iterate, sq.dispatcher, vq.dispatcher, sg.eko_iterate)
    oq, oe = order
    dim = 4 if sector == "singlet" else 2
    rp = (MOD, "replay_matrix", {"order": list(order), "sector": sector})
    log.register_replay("fallback:replay_matrix", rp, _sampler)

    def run():
        a = [SR.var("a%d" % i) for i in range(3)]
        for x in a:
            assume(x, ">0")
        bet, bs, _ = sym_rge(oq) if oq < 4 else sym_rge(3)
        if oq == 4:
            bet = bet + [SR.var("b3") * bet[0]]
        b21 = SR.var("b21")
        gs = singlet_gammas(oq, "general")  # QCD singlet tower, basis (Sigma, g)
        gns = [SR.var("p%d" % k) for k in range(oq)]  # non-singlet (+) tower for Sigma_Delta / V_Delta
        gv = [SR.var("v%d" % k) for k in range(oq)]  # valence tower
        G = realnp.empty((oq + 1, oe + 1, dim, dim), dtype=object)
        for i in range(oq + 1):
            for j in range(oe + 1):
                for k in range(dim):
                    for l in range(dim):
                        if j > 0 or i == 0:
                            # entries multiplying aem^j (j>0) are arbitrary: they must drop out at aem = 0; the (0,0) entry is zero
                            G[i, j, k, l] = SR.var("X%d%d_%d%d" % (i, j, k, l)) if (i, j) != (0, 0) else SR(0)
                        elif dim == 4:
                            if (k, l) in EMB:
                                G[i, j, k, l] = gs[i - 1][EMB[(k, l)]]
                            elif (k, l) == (3, 3):
                                G[i, j, k, l] = gns[i - 1]
                            else:
                                G[i, j, k, l] = SR(0)
                        else:
                            G[i, j, k, l] = (gv[i - 1] if k == 0 else gns[i - 1]) if k == l else SR(0)
        steps = 2
        a_half = realnp.empty((steps, 2), dtype=object)
        for s in range(steps):
            a_half[s, 0] = (a[s + 1] + a[s]) / 2
            a_half[s, 1] = SR(0)

        class Beta:
            @staticmethod
            def beta_qcd(k, nf):
                return b21 if k == (2, 1) else bet[k[0] - 2]

        rec_q = AdRecorder(sq.ad)
        saved = (sq.ad, sq.beta)
        sq.ad, sq.beta = rec_q, Beta()
        try:
            mod = sq if dim == 4 else vq
            mod.dispatcher(order, EvoMethods.ITERATE_EXACT, G, a, a_half, SR.var("nf"), steps, (1, 0))
        finally:
            sq.ad, sq.beta = saved
        # QCD reference exponents step by step (eko_iterate with one iteration per step has a_half = midpoint)
        rec_s = AdRecorder(sg.ad)
        saved = sg.ad
        sg.ad = rec_s
        try:
            for s in range(steps):
                sg.eko_iterate(gs, a[s + 1], a[s], bet, (oq, 0), 1)
        finally:
            sg.ad = saved
        if len(rec_q.calls) != steps or len(rec_s.calls) != steps:
            raise EngineError("unexpected number of matrix exponentials: QED %d, QCD %d" % (len(rec_q.calls), len(rec_s.calls)))
        for s in range(steps):
            lq, ls = rec_q.calls[s], rec_s.calls[s]
            ah = (a[s + 1] + a[s]) / 2
            den = sum(b * ah ** (k + 1) for k, b in enumerate(bet))
            da = a[s + 1] - a[s]
            for k in range(dim):
                for l in range(dim):
                    if dim == 4 and (k, l) in EMB:
                        want = ls[EMB[(k, l)]]
                        what = "equals QCD singlet exponent entry %r" % (EMB[(k, l)],)
                    elif dim == 4 and (k, l) == (3, 3):
                        want = sum(g * ah**i for i, g in enumerate(gns)) / den * da
                        what = "Sdelta entry equals the non-singlet midpoint exponent"
                    elif dim == 2 and k == l:
                        tw = gv if k == 0 else gns
                        want = sum(g * ah**i for i, g in enumerate(tw)) / den * da
                        what = "%s entry equals the non-singlet midpoint exponent" % ("V" if k == 0 else "Vdelta")
                    else:
                        want = SR(0)
                        what = "vanishes (photon / no mixing)"
                    v = prove_zero(Cx.lift(lq[k, l]) - Cx.lift(want), "%s QED step %d exponent [%d,%d] at aem=0 %s (order %r)" % (sector, s + 1, k, l, what, order))
                    log.decide(v, key="%sqed:aem0" % sector, replay=rp, sampler=_sampler)
        log.twin("domain")
        log.collect_ctx()

    _r, pm = explore(run)
    log.path_stats(pm)


def case_midpoint_vs_ns(log, order):
    """exp(midpoint exponent) vs the exact non-singlet kernel: equal through eps^2 for one step."""
    ns, sg, ei, as4, ad = kernel_modules()
    log.encode(ns.nlo_exact, ns.nnlo_exact, ns.lo_exact)
    exact = {1: ns.lo_exact, 2: ns.nlo_exact, 3: ns.nnlo_exact}[order]
    rp = (MOD, "replay_matrix", {"order": [order, 1], "sector": "valence"})
    log.register_replay("fallback:replay_matrix", rp, _sampler)

    def run():
        jetmod.set_cap(5)
        a0 = SR.var("a0")
        assume(a0, ">0")
        eps = Jet.lam()
        a1 = a0 * (1 + eps)
        bet, bs, _ = sym_rge(order)
        g = [SR.var("p%d" % k) for k in range(order)]
        ah = (a1 + a0) / 2
        den = sum(b * ah ** (k + 1) for k, b in enumerate(bet))
        ex = (sum(gk * ah**i for i, gk in enumerate(g)) / den * (a1 - a0)).exp()
        E = as_jet(exact(g, a1, a0, bet))
        d = ex - E
        for k, c in residual_coeffs(d, 3):
            v = prove_zero(c, "exp(midpoint exponent) - exact non-singlet kernel (order %d): eps^%d coefficient" % (order, k))
            log.decide(v, key="sdelta-vs-ns:%d" % order, replay=rp, sampler=_sampler)
        log.twin("domain")
        log.collect_ctx()

    _r, pm = explore(run)
    log.path_stats(pm)


# ---------------------------------------------------------------------------
# ---------------------------------------------------------------------------
# the ekore grids handed to the QED non-singlet kernel: at alpha_em^0 the column gamma_ns_qed[1:, 0] is the pure-QCD tower of the
# sector the unified label belongs to (ns+u, ns+d -> ns+; ns-u, ns-d -> ns-), entry by entry, N3LO variants and variation index included
# ---------------------------------------------------------------------------
NS_REDUCTION = {10102: 10101, 10103: 10101, 10202: 10201, 10203: 10201}


class _UF:
    """stands for a per-order ekore module: every function is an uninterpreted function of its arguments (the harmonic cache,
    a scratch buffer, is not part of the key), so the same call gives the same symbol in the QED grid and in the QCD tower"""

    def __init__(self, real, path):
        self._real, self._path = real, path

    def __getattr__(self, name):
        real = getattr(self._real, name)
        if not callable(real):
            return _UF(real, self._path + "." + name)
        path = self._path

        def leaf(*args, **kw):
            import hashlib

            # keyword and positional spellings of the same call are the same call
            key = [path, name] + [repr(a) for a in list(args) + [v for _k, v in sorted(kw.items())] if isinstance(a, (int, SR, Cx))]
            h = hashlib.sha1("|".join(key).encode()).hexdigest()[:12]
            return Cx(SR.var("uf_%s_re" % h), SR.var("uf_%s_im" % h))

        return leaf


def case_grid_ns(log):
    ad = sym_module("ekore.anomalous_dimensions.unpolarized.space_like")
    log.encode(ad.gamma_ns_qed, ad.gamma_ns)
    log.assume("per-order ekore modules (as1..as4, as4.fhmruvv, aem1, aem2, as1aem1) -> uninterpreted functions of (N, nf, variation)")
    saved = {k: getattr(ad, k) for k in ("as1", "as2", "as3", "as4", "aem1", "aem2", "as1aem1") if hasattr(ad, k)}
    var = (11, 12, 13, 14, 15, 16, 17)
    try:
        for k, m in saved.items():
            setattr(ad, k, _UF(m, k))
        for fh in (True, False):
            for q in (1, 2, 3, 4):
                for e in (1, 2):
                    def run(q=q, e=e, fh=fh):
                        n = Cx(SR.var("N_re"), SR.var("N_im"))
                        for mode, qcd_mode in NS_REDUCTION.items():
                            for nf in (3, 4, 5, 6):
                                rp = (MOD, "replay_grid_ns", {"q": q, "e": e, "mode": mode, "nf": nf, "fh": fh})
                                tag = "gamma_ns_qed(order=(%d,%d), mode=%d, nf=%d, use_fhmruvv=%s)" % (q, e, mode, nf, fh)
                                grid = ad.gamma_ns_qed((q, e), mode, n, nf, var, fh)
                                tower = ad.gamma_ns((q, 0), qcd_mode, n, nf, var, fh)
                                for k in range(1, q + 1):
                                    v = prove_zero(Cx.lift(grid[k, 0]) - Cx.lift(tower[k - 1]), "%s[%d, 0] == gamma_ns(mode=%d)[%d]: the alpha_em^0 column is the QCD tower of the sector" % (tag, k, qcd_mode, k - 1))
                                    log.decide(v, key="gamma_ns_qed:qcd-column", replay=rp, sampler=_sampler)
                                v = prove_zero(Cx.lift(grid[0, 0]), "%s[0, 0] == 0" % tag)
                                log.decide(v, key="gamma_ns_qed:qcd-column", replay=rp, sampler=_sampler)

                    _r, pm = explore(run, max_paths=4)
                    log.path_stats(pm)
        log.twin("domain")
    finally:
        for k, m in saved.items():
            setattr(ad, k, m)


def replay_grid_ns(point, q, e, mode, nf, fh):
    import numpy as np
    import ekore.anomalous_dimensions.unpolarized.space_like as ad

    var = (1, 2, 1, 2, 1, 2, 1) if fh else (0,) * 7
    for n in (2.5 + 0.5j, 4.0 + 1.0j, 1.3 - 2.0j):
        grid = ad.gamma_ns_qed((q, e), mode, n, nf, var, fh)
        tower = ad.gamma_ns((q, 0), NS_REDUCTION[mode], n, nf, var, fh)
        d = np.abs(np.array(grid[1 : q + 1, 0]) - np.array(tower[:q]))
        if d.max() > 1e-10 * max(1.0, float(np.abs(tower).max())):
            k = int(np.argmax(d))
            return {"detail": "gamma_ns_qed((%d,%d), %d, N=%r, nf=%d, variation=%r, use_fhmruvv=%s)[%d, 0] = %r but the QCD tower gamma_ns(mode=%d)[%d] = %r"
                              % (q, e, mode, n, nf, var, fh, k + 1, complex(grid[k + 1, 0]), NS_REDUCTION[mode], k, complex(tower[k]))}
    return None


def _sampler(rng):
    p = {"a0": rnd(rng, 0.005, 0.04), "a1": rnd(rng, 0.005, 0.04), "a2": rnd(rng, 0.005, 0.04), "mu2_from": rnd(rng, 2, 50), "mu2_to": rnd(rng, 2, 500)}
    for i in range(5):
        for j in range(3):
            p["g%d%d" % (i, j)] = rnd(rng, -3, 3) * 4**i
    return p


def replay_ns(point, order, nf):
    import numpy as np
    import eko.kernels.non_singlet_qed as nsq
    import eko.kernels.non_singlet as ns
    from eko.kernels import EvoMethods
    from eko import beta as B

    if not all(k in point for k in ("a0", "a1", "a2")):
        return None
    f = fpoint({k: point[k] for k in ("a0", "a1", "a2", "mu2_from", "mu2_to") if k in point})
    al = [f["a0"], f["a1"], f["a2"]]
    if not all(0 < x < 0.1 for x in al):
        return None
    oq, oe = order
    g = np.zeros((oq + 1, oe + 1), dtype=complex)
    for i in range(oq + 1):
        for j in range(oe + 1):
            if (i, j) != (0, 0):
                re = float(point.get("g%d%d" % (i, j), 1.0 + i))
                g[i, j] = complex(re, 0.3 * re + 0.1)
    exact = {1: ns.lo_exact, 2: ns.nlo_exact, 3: ns.nnlo_exact, 4: ns.n3lo_exact}[oq]
    bet = [B.beta_qcd((2 + i, 0), nf) for i in range(oq)]
    for steps in (1, 2):
        for running in (True, False):
            got = nsq.dispatcher(tuple(order), EvoMethods.ITERATE_EXACT, g, np.array(al[: steps + 1]), np.zeros(steps), running, nf, steps, f.get("mu2_from", 10.0), f.get("mu2_to", 100.0))
            want = 1.0
            for s in range(1, steps + 1):
                want = want * exact(g[1:, 0], al[s], al[s - 1], bet)
            if abs(complex(got) - complex(want)) > 1e-9 * max(abs(complex(want)), 1e-30):
                return {"detail": "non-singlet QED kernel at aem=0 (%d steps, alphaem_running=%s, order %r, nf %d) = %r but QCD product = %r" % (steps, running, order, nf, got, want)}
    return None


def replay_matrix(point, order, sector):
    """real kernels with aem = 0 and embedded QCD towers vs the QCD singlet / non-singlet kernels (many iterations)."""
    import numpy as np
    import eko.kernels.singlet_qed as sq
    import eko.kernels.valence_qed as vq
    import eko.kernels.singlet as sg
    import eko.kernels.non_singlet as ns
    from eko.kernels import EvoMethods
    from eko import beta as B

    oq, oe = order
    nf = 4
    rng = np.random.default_rng(11)
    gs = rng.normal(size=(oq, 2, 2)) + 0.2j * rng.normal(size=(oq, 2, 2))
    gns = rng.normal(size=oq) + 0.2j
    gv = rng.normal(size=oq) - 0.1j
    dim = 4 if sector == "singlet" else 2
    G = rng.normal(size=(oq + 1, oe + 1, dim, dim)) + 0j
    G[0, 0] = 0
    for i in range(1, oq + 1):
        G[i, 0] = 0
        if dim == 4:
            for (k, l), (m, n) in EMB.items():
                G[i, 0, k, l] = gs[i - 1][m, n]
            G[i, 0, 3, 3] = gns[i - 1]
        else:
            G[i, 0, 0, 0] = gv[i - 1]
            G[i, 0, 1, 1] = gns[i - 1]
    a0, a1 = 0.03, 0.02
    steps = 30
    as_list = np.geomspace(a0, a1, steps + 1)
    a_half = np.array([[(as_list[s] + as_list[s + 1]) / 2, 0.0] for s in range(steps)])
    mod = sq if dim == 4 else vq
    E = np.array(mod.dispatcher(tuple(order), EvoMethods.ITERATE_EXACT, G, as_list, a_half, nf, steps, (1, 0)), dtype=complex)
    bet = [B.beta_qcd((2 + i, 0), nf) for i in range(oq)]
    bad = []
    if dim == 4:
        ES = np.array(sg.eko_iterate(gs, a1, a0, bet, (oq, 0), steps), dtype=complex)
        for (k, l), (m, n) in EMB.items():
            if abs(E[k, l] - ES[m, n]) > 1e-8 * max(1, abs(ES[m, n])):
                bad.append("[%d,%d]=%r vs QCD %r" % (k, l, E[k, l], ES[m, n]))
        for k in range(4):
            for l in range(4):
                if (k, l) not in EMB and (k, l) != (3, 3):
                    tgt = 1.0 if k == l else 0.0
                    if abs(E[k, l] - tgt) > 1e-9:
                        bad.append("[%d,%d]=%r should be %r" % (k, l, E[k, l], tgt))
        ens = complex(ns.dispatcher((oq, 0), EvoMethods.ITERATE_EXACT, gns, a1, a0, nf))
        if abs(E[3, 3] - ens) > 2e-4 * abs(ens):
            bad.append("Sdelta %r vs non-singlet %r" % (E[3, 3], ens))
    else:
        for k, tw in ((0, gv), (1, gns)):
            ens = complex(ns.dispatcher((oq, 0), EvoMethods.ITERATE_EXACT, tw, a1, a0, nf))
            if abs(E[k, k] - ens) > 2e-4 * abs(ens):
                bad.append("valence[%d,%d] %r vs non-singlet %r" % (k, k, E[k, k], ens))
        if abs(E[0, 1]) > 1e-9 or abs(E[1, 0]) > 1e-9:
            bad.append("valence off-diagonals non-zero")
    return {"detail": "%s QED kernel at aem=0 (order %r): " % (sector, order) + "; ".join(bad[:4])} if bad else None


def main():
    chk = H.Check("C14")
    thorough = H.tier() == "thorough"
    chk.bounds = ["non-singlet: orders (1..4, 1..2), nf=4 (quick) / 3-6 (thorough), 1 and 2 coupling steps, symbolic couplings and scales",
                  "singlet (4x4) and valence (2x2): orders (1..3,1..2) (quick: (1,1),(2,2),(3,1)), 2 steps, symbolic beta_k (every nf), arbitrary "
                  "symbolic entries at alpha_em orders > 0 (they must drop out)",
                  "Sdelta/Vdelta/V vs exact non-singlet kernel: one step, through eps^2, orders 1-3"]
    chk.stubs = ["ekore exp_matrix / exp_matrix_2D -> recorder of the exponent (the exponential itself is C23)", "eko.beta inside singlet_qed -> symbolic"]
    chk.out_of_claim = ["end-to-end alpha_em -> 0 limit of full solves (numerical)", "floating point"]
    ns_orders = [(q, e) for q in (1, 2, 3, 4) for e in (1, 2)] if thorough else [(1, 1), (2, 2), (3, 1), (4, 2)]
    for nf in ((3, 4, 5, 6) if thorough else (4,)):
        for od in ns_orders:
            chk.case("ns.o%d%d.nf%d" % (od[0], od[1], nf), case_ns, order=od, nf=nf)
    m_orders = [(q, e) for q in (1, 2, 3, 4) for e in (1, 2)] if thorough else [(1, 1), (2, 2), (3, 1), (4, 1)]
    for od in m_orders:
        for sec in ("singlet", "valence"):
            chk.case("%s.o%d%d" % (sec, od[0], od[1]), case_matrix, order=od, sector=sec)
    for o in (1, 2, 3):
        chk.case("midpoint-vs-ns.o%d" % o, case_midpoint_vs_ns, order=o)
    chk.bounds.append("ekore non-singlet QED grids: orders (1..4, 1..2) x 4 unified labels x nf 3..6 x both N3LO variants, N and the per-order functions symbolic")
    chk.case("grid.ns", case_grid_ns)
    # "for the same coupling steps": the steps the real Operator supplies (geometric a_s nodes, midpoint couplings of each step)
    from . import opwire

    chk.bounds.append("Operator.compute_aem_list on symbolic scales, 2 and 3 iterations (quick) / 1-3 (thorough), running and fixed alpha_em")
    opwire.add_cases(chk, "C14", thorough, qcd=False)
    opwire.add_qed_routing(chk, "C14", thorough)
    return chk.run()


if __name__ == "__main__":
    import sys

    sys.exit(main())
