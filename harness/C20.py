"""C20  Beta-function and mass anomalous-dimension coefficients match the literature.

Real functions executed symbolically: every function of eko.beta and eko.gamma with nf (and nl)
symbolic reals and zeta3/zeta4/zeta5 rebound to opaque symbols.  Oracle: refs/rge_literature.py."""
from fractions import Fraction

from .common import *  # noqa
from symx.solver import explore, prove_zero, prove_rel
from symx import harness as H
from refs import rge_literature as L

MOD = "harness.C20"
RTOL = Fraction(1, 10**11)


def _bind_zetas(mod):
    z = {}
    for n in ("zeta3", "zeta4", "zeta5"):
        if hasattr(mod, n):
            z[n] = SR.var(n)
            setattr(mod, n, z[n])
    return z


def _zdomain(z):
    # zeta values lie in these boxes (enough to bound the residual; the identity is coefficient-wise)
    box = {"zeta3": (1.2, 1.21), "zeta4": (1.08, 1.09), "zeta5": (1.03, 1.04)}
    for n, s in z.items():
        lo, hi = box[n]
        assume(s - lo, ">0")
        assume(hi - s, ">0")


QCD = [
    ("beta_qcd_as2", "beta", lambda nf, z: L.beta0(nf), 11),
    ("beta_qcd_as3", "beta", lambda nf, z: L.beta1(nf), 102),
    ("beta_qcd_as4", "beta", lambda nf, z: L.beta2(nf), 1500),
    ("beta_qcd_as5", "beta", lambda nf, z: L.beta3(nf, z["zeta3"]), 30000),
    ("gamma_qcd_as1", "gamma", lambda nf, z: L.gamma0(), 4),
    ("gamma_qcd_as2", "gamma", lambda nf, z: L.gamma1(nf), 70),
    ("gamma_qcd_as3", "gamma", lambda nf, z: L.gamma2(nf, z["zeta3"]), 1300),
    ("gamma_qcd_as4", "gamma", lambda nf, z: L.gamma3(nf, z["zeta3"], z["zeta4"], z["zeta5"]), 30000),
]


def case_qcd(log, name):
    ent = [e for e in QCD if e[0] == name][0]
    _n, modn, lit, scale = ent
    mod = sym_module("eko." + modn)
    f = getattr(mod, name)
    log.encode(f)

    def run():
        z = _bind_zetas(mod)
        zz = {n: z.get(n, SR.var(n)) for n in ("zeta3", "zeta4", "zeta5")}
        _zdomain(z)
        nf = SR.var("nf")
        assume(nf, ">=0")
        assume(6 - nf, ">=0")
        got = f() if name == "gamma_qcd_as1" else f(nf)
        got = got if isinstance(got, SR) else SR(Q(Poly.const(got)))
        want = lit(nf, zz)
        want = want if isinstance(want, SR) else SR(Q(Poly.const(want)))
        diff = got - want
        tol = RTOL * scale
        for rel, expr, tag in ((">=0", diff + tol, "lower"), ("<=0", diff - tol, "upper")):
            v = prove_rel(expr, rel, "%s(nf) - literature within %.1e (%s) for all nf in [0,6]" % (name, float(tol), tag))
            log.decide(v, key="%s:literature" % name, replay=(MOD, "replay", {"name": name}),
                       candidates=[{"nf": Fraction(k)} for k in range(0, 7)])
        # the dispatcher returns the same function
        log.twin("domain")
        log.collect_ctx()

    _r, pm = explore(run)
    log.path_stats(pm)


def case_dispatch(log):
    """beta_qcd / beta_qed / gamma / b_qcd / b_qed dispatch to the right coefficient (nf symbolic or enumerated)."""
    beta = sym_module("eko.beta")
    gamma = sym_module("eko.gamma")
    log.encode(beta.beta_qcd, beta.beta_qed, beta.b_qcd, beta.b_qed, gamma.gamma)

    def run():
        z = _bind_zetas(beta)
        _bind_zetas(gamma)
        nf = SR.var("nf")
        assume(nf, ">=0")
        assume(6 - nf, ">=0")
        for k, fn in (((2, 0), beta.beta_qcd_as2), ((3, 0), beta.beta_qcd_as3), ((4, 0), beta.beta_qcd_as4), ((5, 0), beta.beta_qcd_as5)):
            v = prove_zero(beta.beta_qcd(k, nf) - fn(nf), "beta_qcd(%r) dispatches to %s" % (k, fn.__name__))
            log.decide(v, key="beta_qcd:dispatch%r" % (k,), replay=(MOD, "replay_dispatch", {"k": list(k)}), candidates=[{"nf": Fraction(4)}])
            if k != (2, 0):
                v = prove_zero(beta.b_qcd(k, nf) * beta.beta_qcd_as2(nf) - fn(nf), "b_qcd(%r)*beta0 == beta_k" % (k,))
                log.decide(v, key="b_qcd:%r" % (k,), replay=(MOD, "replay_dispatch", {"k": list(k), "b": True}), candidates=[{"nf": Fraction(4)}])
        for o, fn in ((1, gamma.gamma_qcd_as1), (2, gamma.gamma_qcd_as2), (3, gamma.gamma_qcd_as3), (4, gamma.gamma_qcd_as4)):
            want = fn() if o == 1 else fn(nf)
            v = prove_zero(SR(0) + gamma.gamma(o, nf) - want, "gamma(%d) dispatches" % o)
            log.decide(v, key="gamma:dispatch%d" % o, replay=(MOD, "replay_dispatch", {"g": o}), candidates=[{"nf": Fraction(4)}])
        log.twin("domain")

    _r, pm = explore(run)
    log.path_stats(pm)


def case_qed(log, nf):
    """QED and mixed coefficients: nf concrete (0..6, uplike_flavors uses //), nl symbolic."""
    beta = sym_module("eko.beta")
    log.encode(beta.beta_qed_aem2, beta.beta_qed_aem3, beta.beta_qcd_as2aem1, beta.beta_qed_aem2as1, beta.beta_qed, beta.beta_qcd)

    # if the symbolic run cannot complete (e.g. nl reaching an integer-only slot), the numeric replays decide
    for nm in ("b_qed((0,3))", "b_qed((1,2))", "b_qed((0,2))", "beta_qed((0,2))", "beta_qed((0,3))", "beta_qed((1,2))"):
        log.register_replay("%s:literature" % nm, (MOD, "replay_qed", {"name": nm, "nf": nf}), _sampler_nl)

    def run():
        nl = SR.var("nl")
        assume(nl, ">=0")
        assume(3 - nl, ">=0")
        items = [
            ("beta_qed_aem2", beta.beta_qed_aem2(nf, nl), L.beta_qed0(nf, nl), 10),
            ("beta_qed_aem3", beta.beta_qed_aem3(nf, nl), L.beta_qed1(nf, nl), 20),
            ("beta_qcd_as2aem1", SR(0) + beta.beta_qcd_as2aem1(nf), SR(0) + L.beta_qcd_as2aem1(nf), 5),
            ("beta_qed_aem2as1", SR(0) + beta.beta_qed_aem2as1(nf), SR(0) + L.beta_qed_aem2as1(nf), 30),
            ("beta_qed((0,2))", beta.beta_qed((0, 2), nf, nl), L.beta_qed0(nf, nl), 10),
            ("beta_qed((0,3))", beta.beta_qed((0, 3), nf, nl), L.beta_qed1(nf, nl), 20),
            ("beta_qed((1,2))", SR(0) + beta.beta_qed((1, 2), nf, nl), SR(0) + L.beta_qed_aem2as1(nf), 30),
            ("beta_qcd((2,1))", SR(0) + beta.beta_qcd((2, 1), nf), SR(0) + L.beta_qcd_as2aem1(nf), 5),
            # the normalised coefficients, cross-multiplied: b_qed(k) * beta0_qed(nf, nl) == beta_qed(k)   (nf and nl in their own slots)
            ("b_qed((0,3))", beta.b_qed((0, 3), nf, nl) * L.beta_qed0(nf, nl), L.beta_qed1(nf, nl), 20),
            ("b_qed((1,2))", SR(0) + beta.b_qed((1, 2), nf, nl) * L.beta_qed0(nf, nl), SR(0) + L.beta_qed_aem2as1(nf), 30),
            ("b_qed((0,2))", SR(0) + beta.b_qed((0, 2), nf, nl), SR(1), 1),
            ("b_qcd((2,1))", SR(0) + beta.b_qcd((2, 1), nf) * L.beta0(nf), SR(0) + L.beta_qcd_as2aem1(nf), 5),
        ]
        for name, got, want, scale in items:
            diff = got - want
            tol = RTOL * scale
            for rel, expr, tag in ((">=0", diff + tol, "lower"), ("<=0", diff - tol, "upper")):
                v = prove_rel(expr, rel, "%s(nf=%d, nl) - literature within %.1e (%s) for nl in [0,3]" % (name, nf, float(tol), tag))
                log.decide(v, key="%s:literature" % name, replay=(MOD, "replay_qed", {"name": name, "nf": nf}),
                           candidates=[{"nl": Fraction(k)} for k in (2, 3, 0, 1)])
        log.twin("domain")

    _r, pm = explore(run)
    log.path_stats(pm)


# ---------------------------------------------------------------------------
def _zvals():
    import mpmath as mp

    return {"zeta3": float(mp.zeta(3)), "zeta4": float(mp.zeta(4)), "zeta5": float(mp.zeta(5))}


def replay(point, name):
    import eko.beta as beta
    import eko.gamma as gamma
    import mpmath as mp

    ent = [e for e in QCD if e[0] == name][0]
    nf = float(point.get("nf", 4))
    if not 0 <= nf <= 6:
        return None
    mod = beta if ent[1] == "beta" else gamma
    got = getattr(mod, name)() if name == "gamma_qcd_as1" else getattr(mod, name)(nf)
    want = float(ent[2](nf, _zvals()))
    if abs(got - want) > 1e-9 * ent[3]:
        return {"detail": "%s(nf=%r) = %r but literature value is %r" % (name, nf, got, want)}
    return None


def _sampler_nl(rng):
    return {"nl": Fraction(rng.randrange(4))}


def replay_dispatch(point, k=None, b=False, g=None):
    import eko.beta as beta
    import eko.gamma as gamma

    nf = float(point.get("nf", 4))
    if g is not None:
        want = [None, gamma.gamma_qcd_as1, gamma.gamma_qcd_as2, gamma.gamma_qcd_as3, gamma.gamma_qcd_as4][g]
        w = want() if g == 1 else want(nf)
        got = gamma.gamma(g, nf)
    else:
        k = tuple(k)
        w = {(2, 0): beta.beta_qcd_as2, (3, 0): beta.beta_qcd_as3, (4, 0): beta.beta_qcd_as4, (5, 0): beta.beta_qcd_as5}[k](nf)
        got = beta.b_qcd(k, nf) * beta.beta_qcd_as2(nf) if b else beta.beta_qcd(k, nf)
    if abs(got - w) > 1e-9 * max(1, abs(w)):
        return {"detail": "dispatch mismatch: got %r want %r (k=%r g=%r nf=%r)" % (got, w, k, g, nf)}
    return None


def replay_qed(point, name, nf):
    import eko.beta as beta

    nl = float(point.get("nl", 3))
    tab = {
        "beta_qed_aem2": (lambda: beta.beta_qed_aem2(nf, nl), L.beta_qed0(nf, Fraction(nl))),
        "beta_qed_aem3": (lambda: beta.beta_qed_aem3(nf, nl), L.beta_qed1(nf, Fraction(nl))),
        "beta_qcd_as2aem1": (lambda: beta.beta_qcd_as2aem1(nf), L.beta_qcd_as2aem1(nf)),
        "beta_qed_aem2as1": (lambda: beta.beta_qed_aem2as1(nf), L.beta_qed_aem2as1(nf)),
        "beta_qed((0,2))": (lambda: beta.beta_qed((0, 2), nf, nl), L.beta_qed0(nf, Fraction(nl))),
        "beta_qed((0,3))": (lambda: beta.beta_qed((0, 3), nf, nl), L.beta_qed1(nf, Fraction(nl))),
        "beta_qed((1,2))": (lambda: beta.beta_qed((1, 2), nf, nl), L.beta_qed_aem2as1(nf)),
        "beta_qcd((2,1))": (lambda: beta.beta_qcd((2, 1), nf), L.beta_qcd_as2aem1(nf)),
        "b_qed((0,3))": (lambda: beta.b_qed((0, 3), nf, nl), L.beta_qed1(nf, Fraction(nl)) / L.beta_qed0(nf, Fraction(nl))),
        "b_qed((1,2))": (lambda: beta.b_qed((1, 2), nf, nl), L.beta_qed_aem2as1(nf) / L.beta_qed0(nf, Fraction(nl))),
        "b_qed((0,2))": (lambda: beta.b_qed((0, 2), nf, nl), Fraction(1)),
        "b_qcd((2,1))": (lambda: beta.b_qcd((2, 1), nf), L.beta_qcd_as2aem1(nf) / L.beta0(nf)),
    }
    f, want = tab[name]
    got = f()
    if abs(got - float(want)) > 1e-9 * max(1, abs(float(want))):
        return {"detail": "%s(nf=%d, nl=%r) = %r but literature value is %r" % (name, nf, nl, got, float(want))}
    return None


def main():
    chk = H.Check("C20")
    chk.bounds = ["nf real in [0,6] (QCD coefficients as polynomials in nf), nf in {0..6} enumerated and nl real in [0,3] for QED/mixed",
                  "zeta3, zeta4, zeta5 opaque symbols within 1e-2 boxes around their values; tolerance 1e-11 * scale (float constants such as CF=1.333.. are read exactly)"]
    chk.out_of_claim = ["colour factors other than NC=3 (constants.update_colors)"]
    chk.assumptions = ["refs/rge_literature.py transcribes the cited papers correctly (trusted base)"]
    chk.exhaustive = False
    for e in QCD:
        chk.case(e[0], case_qcd, name=e[0])
    chk.case("dispatch", case_dispatch)
    for nf in range(0, 7):
        chk.case("qed.nf%d" % nf, case_qed, nf=nf)
    return chk.run()


if __name__ == "__main__":
    import sys

    sys.exit(main())
